"""Object zoo: builds every kind of geometer object from a short list of small integers (JSON-able), deterministically.

Used by the cross-cutting properties (C03, C04, C06, C07, C12). Degenerate parameter choices raise Skip, decided
exactly (integer rank tests) before geometer is called, except where noted.
"""
from __future__ import annotations

from fractions import Fraction

import numpy as np
from hypothesis import strategies as st

import geometer as G
from geometer import (
    Circle, Cone, Conic, Cuboid, Cylinder, Ellipse, Line, LineCollection, Plane, PlaneCollection, Point, PointCollection,
    Polygon, PolygonCollection, Quadric, QuadricCollection, Rectangle, Segment, SegmentCollection, Simplex, Sphere,
    Transformation, TransformationCollection, Triangle,
)

from . import exact as X
from .runner import Skip

KINDS2 = ["point", "pointinf", "line", "pointcoll", "linecoll", "quadric", "dualquadric", "circle", "ellipse", "quadriccoll",
          "segment", "polygon", "triangle", "rectangle", "segmentcoll", "polygoncoll", "transformation", "transformationcoll"]
KINDS3 = ["point", "pointinf", "line", "plane", "pointcoll", "linecoll", "planecoll", "quadric", "dualquadric", "sphere", "cone",
          "cylinder", "quadriccoll", "segment", "polygon", "triangle", "rectangle", "simplex", "cuboid", "segmentcoll", "polygoncoll",
          "transformation", "transformationcoll"]
NV = 24  # number of integer parameters


def params(R=6):
    return st.lists(st.integers(-R, R), min_size=NV, max_size=NV)


def irank(rows) -> int:
    return X.rank([[Fraction(int(x)) for x in r] for r in rows])


def fp(v, d):
    """finite point from the first d ints"""
    return np.array(list(v[:d]) + [1], dtype=float)


def plucker_dual(p, q):
    from .props.c01 import dual_plucker

    from .props.c01 import pow2_normalise

    m = dual_plucker([Fraction(int(x)) for x in p], [Fraction(int(x)) for x in q])
    return pow2_normalise(np.array([[float(x) for x in r] for r in m])) * 4


def planar_frame(v):
    """origin o and two independent integer directions u, w of a plane in 3-space"""
    o = np.array(v[0:3], dtype=float)
    u = np.array(v[3:6], dtype=float)
    w = np.array(v[6:9], dtype=float)
    if irank([v[3:6], v[6:9]]) < 2:
        raise Skip("degenerate frame")
    return o, u, w


# 2D polygon templates (simple, some non-convex), vertices in lattice coordinates
POLY_TEMPLATES = [
    [(0, 0), (4, 0), (4, 3), (0, 3)],
    [(0, 0), (4, 0), (5, 2), (2, 4), (-1, 2)],
    [(0, 0), (4, 0), (4, 4), (2, 1), (0, 4)],  # non-convex
    [(0, 0), (3, 0), (3, 1), (1, 1), (1, 3), (0, 3)],  # L-shape
    [(0, 0), (2, -1), (4, 0), (3, 2), (4, 4), (2, 3), (0, 4)],
]


def polygon_vertices(v, d):
    """lattice vertices (homogeneous rows) of a simple polygon in dimension d"""
    tpl = POLY_TEMPLATES[abs(v[9]) % len(POLY_TEMPLATES)]
    # unimodular-ish integer shear + translation keeps it simple
    a, b = v[10] % 3 - 1, v[11] % 3 - 1
    M = np.array([[1, a], [b, 1 + a * b]], dtype=float)
    pts2 = np.array(tpl, dtype=float) @ M.T
    if d == 2:
        pts = pts2 + np.array(v[0:2], dtype=float)
    else:
        o, u, w = planar_frame(v)
        pts = o + pts2[:, :1] * u + pts2[:, 1:] * w
    return np.concatenate([pts, np.ones((len(pts), 1))], axis=1)


def build(kind: str, d: int, v):
    """-> (object, naxes) ; naxes = number of trailing array axes forming one projective tensor"""
    n = d + 1
    if kind == "point":
        return Point(fp(v, d) * (v[d] if v[d] else 1)), 1
    if kind == "pointinf":
        a = list(v[:d]) + [0]
        if not any(a):
            raise Skip("zero")
        return Point(np.array(a, dtype=float)), 1
    if kind == "line":
        if d == 2:
            if not any(v[:3]):
                raise Skip("zero")
            return Line(np.array(v[:3], dtype=float)), 1
        p, q = list(v[0:4]), list(v[4:8])
        if irank([p, q]) < 2:
            raise Skip("degenerate")
        return Line(plucker_dual(p, q)), 2
    if kind == "plane":
        if not any(v[:4]):
            raise Skip("zero")
        return Plane(np.array(v[:4], dtype=float)), 1
    if kind == "pointcoll":
        rows = [list(v[i * n : i * n + n]) for i in range(3)]
        rows[0][-1] = 1
        rows[2][-1] = 0
        if any(not any(r) for r in rows):
            raise Skip("zero")
        return PointCollection(np.array(rows, dtype=float)), 1
    if kind == "linecoll":
        if d == 2:
            rows = [list(v[i * 3 : i * 3 + 3]) for i in range(3)]
            if any(not any(r) for r in rows):
                raise Skip("zero")
            return LineCollection(np.array(rows, dtype=float)), 1
        ls = []
        for i in range(2):
            p, q = list(v[i * 8 : i * 8 + 4]), list(v[i * 8 + 4 : i * 8 + 8])
            if irank([p, q]) < 2:
                raise Skip("degenerate")
            ls.append(plucker_dual(p, q))
        return LineCollection(np.array(ls)), 2
    if kind == "planecoll":
        rows = [list(v[i * 4 : i * 4 + 4]) for i in range(3)]
        if any(not any(r) for r in rows):
            raise Skip("zero")
        return PlaneCollection(np.array(rows, dtype=float)), 1
    if kind in ("quadric", "dualquadric", "quadriccoll"):
        def mat(off):
            m = np.zeros((n, n))
            k = off
            for i in range(n):
                for j in range(i, n):
                    m[i, j] = m[j, i] = v[k % NV]
                    k += 1
            if X.det([[Fraction(int(x)) for x in r] for r in m]) == 0:
                raise Skip("singular")
            return m

        if kind == "quadric":
            return Quadric(mat(0)), 2
        if kind == "dualquadric":
            return Quadric(mat(0), is_dual=True), 2
        return QuadricCollection(np.array([mat(0), mat(5)])), 2
    if kind == "circle":
        return Circle(Point(v[0], v[1]), abs(v[2]) + 1), 2
    if kind == "ellipse":
        return Ellipse(Point(v[0], v[1]), abs(v[2]) + 1, abs(v[3]) + 2), 2
    if kind == "sphere":
        return Sphere(Point(v[0], v[1], v[2]), abs(v[3]) + 1), 2
    if kind == "cone":
        if not any(v[3:6]):
            raise Skip("zero axis")
        return Cone(Point(v[0], v[1], v[2]), Point(v[0] + v[3], v[1] + v[4], v[2] + v[5]), abs(v[6]) + 1), 2
    if kind == "cylinder":
        if not any(v[3:6]):
            raise Skip("zero axis")
        return Cylinder(Point(v[0], v[1], v[2]), Point(v[3], v[4], v[5]), abs(v[6]) + 1), 2
    if kind == "segment":
        p, q = fp(v, d), fp(v[d:], d)
        if np.array_equal(p, q):
            raise Skip("degenerate")
        return Segment(Point(p * (2 if v[-1] > 0 else 1)), Point(q)), 1
    if kind == "segmentcoll":
        a = np.array([[fp(v[i * 2 * d :], d), fp(v[i * 2 * d + d :], d)] for i in range(2)])
        if any(np.array_equal(s[0], s[1]) for s in a):
            raise Skip("degenerate")
        return SegmentCollection(a), 1
    if kind == "polygon":
        return Polygon(polygon_vertices(v, d)), 1
    if kind == "polygoncoll":
        a = polygon_vertices(v, d)
        vv = list(v)
        vv[0] += 7
        vv[1] -= 3
        b = polygon_vertices(vv, d)
        if d == 3 and abs(v[9]) % len(POLY_TEMPLATES) == 0:
            pass
        return PolygonCollection(np.array([a, b])), 1
    if kind in ("triangle", "rectangle"):
        if d == 2:
            o, u, w = np.array(v[0:2], dtype=float), np.array(v[2:4], dtype=float), np.array(v[4:6], dtype=float)
            if irank([v[2:4], v[4:6]]) < 2:
                raise Skip("degenerate")
        else:
            o, u, w = planar_frame(v)
        if kind == "triangle":
            pts = [o, o + u, o + w]
            return Triangle(*[Point(*p) for p in pts]), 1
        if d == 2:
            w = np.array([-u[1], u[0]]) * (abs(v[6]) % 3 + 1)
        else:
            w = np.cross(u, np.cross(u, w))
            if not np.any(w):
                raise Skip("degenerate")
        pts = [o, o + u, o + u + w, o + w]
        return Rectangle(*[Point(*p) for p in pts]), 1
    if kind == "simplex":
        pts = [list(v[i * 3 : i * 3 + 3]) + [1] for i in range(4)]
        if irank(pts) < 4:
            raise Skip("degenerate")
        return Simplex(*[Point(np.array(p, dtype=float)) for p in pts]), 1
    if kind == "cuboid":
        o = np.array(v[0:3], dtype=float)
        u = np.array(v[3:6], dtype=float)
        w0 = np.array(v[6:9], dtype=float)
        w = np.cross(u, w0)
        if not np.any(w):
            raise Skip("degenerate")
        x = np.cross(u, w)
        return Cuboid(Point(*o), Point(*(o + u)), Point(*(o + w)), Point(*(o + x))), 1
    if kind in ("transformation", "transformationcoll"):
        def mat(off):
            m = np.array([[v[(off + i * n + j) % NV] % 7 - 3 for j in range(n)] for i in range(n)], dtype=float)
            if X.det([[Fraction(int(x)) for x in r] for r in m]) == 0:
                raise Skip("singular")
            return m

        if kind == "transformation":
            return Transformation(mat(0)), 2
        return TransformationCollection(np.array([mat(0), mat(3)])), 2
    raise KeyError(kind)


def int_matrix(v, n, off=0):
    """invertible integer matrix with entries in [-3, 3] from parameters, exact det != 0"""
    m = [[int(v[(off + i * n + j) % len(v)]) % 7 - 3 for j in range(n)] for i in range(n)]
    for k in range(8):
        # a singular draw is repaired deterministically by adding k to the diagonal (some k <= n works)
        mk = [[m[i][j] + (k if i == j else 0) for j in range(n)] for i in range(n)]
        if X.det([[Fraction(x) for x in r] for r in mk]) != 0:
            return np.array(mk, dtype=float)
    raise Skip("singular")


def is_affine(m) -> bool:
    return not np.any(m[-1, :-1])


def rows_of(obj, naxes):
    """array of the object viewed as (..., tensor) for projective comparison"""
    return obj.array


MCLASSES = ["projective", "projective", "affine", "shear", "unimodular", "squeeze", "isometry", "origin_fixing", "unit_columns"]


def _unit_vectors(n, bound):
    """rational unit vectors v / |v| for the integer vectors v with entries up to `bound` and an integer norm (Pythagorean tuples)"""
    from itertools import product as _product
    from math import isqrt

    out = []
    for v in _product(range(-bound, bound + 1), repeat=n):
        q = sum(x * x for x in v)
        r = isqrt(q)
        if q and r * r == q and sum(1 for x in v if x) >= 2 and v > tuple(-x for x in v):
            out.append((v, r))
    return out


UNITVECS = {2: _unit_vectors(2, 15), 3: _unit_vectors(3, 6), 4: _unit_vectors(4, 3), 5: _unit_vectors(5, 2)}


def class_matrix(v, n, mclass="projective", off=0):
    """invertible matrix of a given structural class from integer parameters (exact determinant != 0)"""
    v = [int(x) for x in v]
    g = lambda i: v[(off + i) % len(v)]  # noqa: E731
    if mclass == "projective":
        return int_matrix(v, n, off)
    m = np.eye(n)
    k = n - 1
    if mclass == "affine":
        m[:k, :k] = int_matrix(v, k, off)
        m[:k, -1] = [g(20 + i) % 5 - 2 for i in range(k)]
    elif mclass == "shear":
        for i in range(k):
            for j in range(i + 1, k):
                m[i, j] = g(i * k + j) % 5 - 2
        if not np.any(m[:k, :k] - np.eye(k)):
            m[0, 1] = 1
        m[:k, -1] = [g(20 + i) % 5 - 2 for i in range(k)]
    elif mclass == "unimodular":
        lo, up = np.eye(k), np.eye(k)
        for i in range(k):
            for j in range(i):
                lo[i, j] = g(i * k + j) % 3 - 1
            for j in range(i + 1, k):
                up[i, j] = g(7 + i * k + j) % 3 - 1
        if not np.any(up - np.eye(k)):
            up[0, 1] = 1
        m[:k, :k] = lo @ up
        m[:k, -1] = [g(20 + i) % 5 - 2 for i in range(k)]
    elif mclass == "squeeze":
        d = [2.0, 0.5] + [1.0] * (k - 2)
        m[:k, :k] = np.diag(d)
        if g(3) % 2:
            m[:k, :k] = m[:k, :k][::-1, ::-1]
    elif mclass == "isometry":
        perm = sorted(range(k), key=lambda i: (g(i) % 7, i))
        for i, j in enumerate(perm):
            m[i, i] = 0
        m[:k, :k] = 0
        for i, j in enumerate(perm):
            m[i, j] = 1 if g(10 + i) % 2 else -1
        m[:k, -1] = [g(20 + i) % 5 - 2 for i in range(k)]
    elif mclass == "origin_fixing":
        m[:k, :k] = int_matrix(v, k, off)
        m[-1, :k] = [g(20 + i) % 5 - 2 for i in range(k)]
        if not np.any(m[-1, :k]):
            m[-1, 0] = 1
    elif mclass == "unit_columns":
        # the map of the square lattice onto a lattice spanned by rational unit vectors (3/5, 4/5), (2/7, 3/7, 6/7), ...: every column of
        # the matrix has length 1, but the columns are not orthogonal in general (a test of the column lengths takes it for a rotation)
        for j in range(k):
            vec, r = UNITVECS[k][(g(j) * 7 + g(j + 5)) % len(UNITVECS[k])]
            m[:k, j] = [x / r for x in vec]
    else:
        raise KeyError(mclass)
    if X.det([[Fraction(x).limit_denominator(1000) for x in r] for r in m]) == 0:
        raise Skip("singular")
    return m


# ------------------------------------------------------------------------------------------- derived objects
WARM_ATTRS = ("vertices", "edges", "faces", "area", "centroid", "length", "midpoint", "_line", "_plane", "dual", "is_degenerate", "center", "radius",
              "components", "volume", "general_point", "base_point", "direction", "basis_matrix", "normalized_array", "isinf", "isreal",
              "facets", "_edges", "angles", "inradius", "circumcenter", "foci", "lie_coordinates", "T", "shape", "tensor_shape", "rank", "size",
              "dim", "free_indices", "dtype")

DERIVATIONS = (None, None, "translation*", "+point", "scaling*", "k*identity")


def warm(obj, point=None):
    """Use an object before it is derived from: evaluate its parameterless queries (and contains(point) if a point is given).
    Whatever a query leaves behind in the object (memoised values, views) is then present when the object is transformed.
    Exceptions are ignored here: the value of each query is the subject of other checks."""
    for name in WARM_ATTRS:
        try:
            getattr(obj, name)
        except Exception:  # noqa: BLE001
            pass
    if point is not None:
        try:
            obj.contains(point)
        except Exception:  # noqa: BLE001
            pass


def derive_moved(build, rows, how, m, warm_point=None, prepare=None, positive=False):
    """Build the object with homogeneous vertex rows `rows` not directly but by derivation: construct its exact pre-image
    under an integer translation by m (or the scaling by 2), use it once (warm + optional prepare(obj0)), then move it with
    the library (translation(m) * obj0, obj0 + Point(m), scaling(2, ..) * obj0). All maps are exact in floating point, so the
    derived object has exactly the vertex rows `rows` up to the representative. how=None builds directly."""
    rows = np.asarray(rows, dtype=float)
    if how is None:
        return build(rows)
    d = rows.shape[-1] - 1
    if how == "k*identity":
        # the identity map given by a non-unit representative of its matrix: the same object, every vertex representative rescaled
        obj0 = build(rows)
        warm(obj0, warm_point(rows) if warm_point is not None else None)
        if prepare is not None:
            prepare(obj0)
        return G.Transformation(np.eye(d + 1) * (-0.5 if (int(sum(m)) % 2 and not positive) else 2.0)) * obj0
    m = np.asarray(list(m)[:d] + [1] * max(0, d - len(m)), dtype=float)
    if how == "scaling*":
        rows0 = rows * np.append(np.full(d, 0.5), 1.0)
    elif how in ("translation*", "+point"):
        rows0 = rows - rows[..., -1:] * np.append(m, 0.0)
    else:
        raise Skip("unknown derivation")
    obj0 = build(rows0)
    warm(obj0, warm_point(rows0) if warm_point is not None else None)
    if prepare is not None:
        prepare(obj0)
    if how == "scaling*":
        return G.scaling(*([2.0] * d)) * obj0
    if how == "translation*":
        return G.translation(*m) * obj0
    return obj0 + G.Point(*m)


def rederive(obj, m, how="translation*"):
    """The same geometric object, but obtained by derivation: obj is moved away by the integer translation -m (a fresh
    object), that object is used (warm), and then moved back with translation(m) * x or x + Point(m). For integer m and
    moderately sized coordinates all three steps are exact up to rounding of the order of 1e-16, so every oracle that holds
    for obj holds for the result; what the intermediate object memoised must not show in the answers of the result."""
    d = obj.dim
    if how == "k*identity":
        warm(obj)
        return G.Transformation(np.eye(d + 1) * (-0.5 if int(sum(m)) % 2 else 2.0)) * obj
    if how == "scaling*":
        # shrink by 1/2, use, enlarge by 2 (exact in binary floating point): lengths, areas and volumes of the intermediate differ
        away = G.scaling(*([0.5] * d)) * obj
        warm(away)
        return G.scaling(*([2.0] * d)) * away
    m = [int(x) for x in list(m)[:d]] + [1] * max(0, d - len(m))
    if not any(m):
        m[0] = 1
    away = G.translation(*[-x for x in m]) * obj
    warm(away)
    if how == "+point":
        return away + G.Point(*m)
    return G.translation(*m) * away


# ------------------------------------------------------------------------------------------- a non-convex polyhedron
def l_block(A, A2, B1, B, H):
    """L-shaped block: union of the boxes [0, A] x [0, B1] x [0, H] and [0, A2] x [B1, B] x [0, H] (0 < A2 < A, 0 < B1 < B), as ten rectangles
    -> list of (axis, value, ((lo, hi), (lo, hi)) ranges on the two other axes in increasing axis order, four vertices in cyclic order)"""
    faces = []

    def rect(axis, val, r1, r2):
        o = [k for k in range(3) if k != axis]
        vs = []
        for u, w in ((r1[0], r2[0]), (r1[1], r2[0]), (r1[1], r2[1]), (r1[0], r2[1])):
            p = [0, 0, 0]
            p[axis], p[o[0]], p[o[1]] = val, u, w
            vs.append(p)
        faces.append((axis, val, (r1, r2), vs))

    for z in (0, H):
        rect(2, z, (0, A), (0, B1))
        rect(2, z, (0, A2), (B1, B))
    rect(1, 0, (0, A), (0, H))
    rect(0, A, (0, B1), (0, H))
    rect(1, B1, (A2, A), (0, H))
    rect(0, A2, (B1, B), (0, H))
    rect(1, B, (0, A2), (0, H))
    rect(0, 0, (0, B), (0, H))
    return faces


def in_l_block(p, A, A2, B1, B, H, strict=True):
    x, y, z = p
    lt = (lambda a, b: a < b) if strict else (lambda a, b: a <= b)
    if not (lt(0, z) and lt(z, H)):
        return False
    return (lt(0, x) and lt(x, A) and lt(0, y) and lt(y, B1)) or (lt(0, x) and lt(x, A2) and lt(0, y) and lt(y, B)) if strict else \
        ((0 <= x <= A and 0 <= y <= B1) or (0 <= x <= A2 and B1 <= y <= B))
